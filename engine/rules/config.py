"""F, G1, N4: configuration dependence of memoised functions, completeness of the mode switch,
confinement of global-state writes."""
from __future__ import annotations

import ast

from ..core import own_walk, OPTION_ATTRS
from ..model import AnalysisError, FAMILY
from ..report import RuleResult, norm

LIST_MUTATORS = {'append', 'extend', 'insert', 'pop', 'remove', 'reverse', 'sort', 'clear', '__setitem__',
                 '__delitem__', 'update', 'setdefault', 'popitem', 'add', 'discard'}


def cached_functions(ctx):
    return [f for f in ctx.m.funcs.values() if f.is_cached()]


def slot_call(ctx, cs):
    """True if the call site dispatches through a mode-switched slot."""
    for tag in cs.recv_type or ():
        for c in ctx.m.mro.get(tag, ()):
            if (c, cs.name) in ctx.m.slots:
                return True
    return False


def call_sites_of(ctx, func):
    out = []
    for n, edges in ctx.callgraph().items():
        for (callee, cs) in edges:
            if callee[0] == func.key:
                out.append((n, cs))
    return out


def rule_F1(ctx):
    """A memoised function reaches no option read / switched slot unless the option is part of its key."""
    r = RuleResult('F1', 'memoised functions do not depend on option values outside their key')
    cached = cached_functions(ctx)
    if not cached:
        raise AnalysisError('no functools.lru_cache function found (anchor vanished)')
    for f in cached:
        roots = [ctx.node(f, c) for c in ctx.R.contexts(f)]
        parent = ctx.reachable(roots)
        deps = {}   # option -> (node, description, ast node)
        for n in parent:
            g = ctx.m.funcs[n[0]]
            for opt, node in ctx.option_reads(g, n[1]):
                deps.setdefault(opt, (n, f"reads options.{opt}", node))
            for cs in ctx.fa(n).calls:
                if slot_call(ctx, cs):
                    deps.setdefault('lsb0', (n, f"calls the mode-switched slot {cs.name}", cs.node))
        # which options are part of the key at every call site?
        sites = [(n, cs) for (n, cs) in call_sites_of(ctx, f) if n[0] != f.key]
        keyed = None
        for (n, cs) in sites:
            here = set()
            caller = ctx.m.funcs[n[0]]
            call = cs.node
            if isinstance(call, ast.Call):
                for a in list(call.args) + [k.value for k in call.keywords]:
                    for x in ast.walk(a):
                        if isinstance(x, ast.Attribute) and x.attr in OPTION_ATTRS and ctx.is_options_expr(caller, x.value, ctx.fa(n)):
                            here.add(x.attr.lstrip('_'))
            keyed = here if keyed is None else (keyed & here)
        keyed = keyed or set()
        if not deps:
            r.ok(f.key, {'instance': f.key, 'reachable_functions': len(parent), 'option_dependence': 'none'})
            continue
        for opt, (n, what, node) in sorted(deps.items()):
            if opt in keyed:
                r.ok(f"{f.key}:{opt}", {'instance': f.key, 'option': opt, 'verdict': 'part of the cache key at every call site'})
                continue
            path = ctx.fmt_path(ctx.path_to(parent, n))
            g = ctx.m.funcs[n[0]]
            r.fail(f.key, f"options.{opt}",
                   f"lru_cache'd {f.name} {what} in {g.key} but options.{opt} is not part of its key: a result cached "
                   f"under one setting is returned under another (path: {path})",
                   loc=g.loc(node), extra={'path': path})
    return r


def rule_F2(ctx):
    """Mutable results of memoised functions are never mutated by their callers."""
    r = RuleResult('F2', 'results of memoised functions are not mutated in place')
    cached = {f.key: f for f in cached_functions(ctx)}
    # pass-through wrappers: every return hands back, unchanged, the result of a memoised function (or of such a wrapper)
    cg = ctx.callgraph()
    for _ in range(3):
        for n, edges in cg.items():
            g = ctx.m.funcs[n[0]]
            if g.key in cached:
                continue
            rets = [x for x in own_walk(g.node) if isinstance(x, ast.Return) and x.value is not None]
            if not rets:
                continue
            srcs = []
            for x in rets:
                hit = [callee for (callee, cs) in edges if cs.node is x.value and callee[0] in cached]
                if not hit:
                    srcs = None
                    break
                srcs.append(hit[0])
            if srcs:
                cached[g.key] = cached[srcs[0][0]]
    # functions that change one of their parameters in place (directly, or by handing it to one that does)
    mut_params = {}
    for g in ctx.m.funcs.values():
        ps = set(g.params())
        hit = set()
        for x in own_walk(g.node):
            if isinstance(x, ast.Call) and isinstance(x.func, ast.Attribute) and isinstance(x.func.value, ast.Name) and x.func.value.id in ps \
                    and x.func.attr in LIST_MUTATORS:
                hit.add(x.func.value.id)
            elif isinstance(x, ast.Subscript) and isinstance(x.ctx, (ast.Store, ast.Del)) and isinstance(x.value, ast.Name) and x.value.id in ps:
                hit.add(x.value.id)
        # a parameter that is re-bound first (`p = list(p)`) is not the caller's object any more
        rebound = {t.id for x in own_walk(g.node) if isinstance(x, ast.Assign) for t in x.targets if isinstance(t, ast.Name)}
        hit -= rebound
        if hit:
            mut_params[g.key] = hit
    for _ in range(2):
        for n, edges in cg.items():
            g = ctx.m.funcs[n[0]]
            ps = set(g.params())
            rebound = {t.id for x in own_walk(g.node) if isinstance(x, ast.Assign) for t in x.targets if isinstance(t, ast.Name)}
            for (callee, cs) in edges:
                if callee[0] in mut_params and isinstance(cs.node, ast.Call):
                    h = ctx.m.funcs[callee[0]]
                    hp = h.params()
                    off = 1 if (h.cls and not h.is_staticmethod() and isinstance(cs.node.func, ast.Attribute)) else 0
                    for i, a in enumerate(cs.node.args):
                        if isinstance(a, ast.Name) and a.id in ps and a.id not in rebound and i + off < len(hp) and hp[i + off] in mut_params[callee[0]]:
                            mut_params.setdefault(g.key, set()).add(a.id)
    for n, edges in cg.items():
        caller = ctx.m.funcs[n[0]]
        fa = ctx.fa(n)
        names = {}
        # a memoised result handed straight to a function that changes that argument in place
        for (callee, cs) in edges:
            if callee[0] in mut_params and isinstance(cs.node, ast.Call):
                h = ctx.m.funcs[callee[0]]
                hp = h.params()
                off = 1 if (h.cls and not h.is_staticmethod() and isinstance(cs.node.func, ast.Attribute)) else 0
                for i, a in enumerate(cs.node.args):
                    if i + off < len(hp) and hp[i + off] in mut_params[callee[0]] and isinstance(a, ast.Call):
                        src = [c2 for (c2, cs2) in edges if cs2.node is a and c2[0] in cached]
                        if src:
                            r.fail(caller.key, cs.node, f"the cached result of {cached[src[0][0]].key} is handed to {h.key}, which changes its parameter "
                                   f"'{hp[i + off]}' in place: every later cache hit sees the change", loc=caller.loc(cs.node))
        for (callee, cs) in edges:
            if callee[0] not in cached or not isinstance(cs.node, ast.Call):
                continue
            # find the assignment that receives the result
            st = cs.stmt
            if isinstance(st, ast.Assign) and any(cs.node is y for y in ast.walk(st.value)) and not any(
                    isinstance(y, ast.Call) and any(cs.node is z for z in ast.walk(y)) and y is not cs.node and
                    isinstance(y.func, ast.Name) and y.func.id in ('list', 'tuple', 'dict', 'sorted', 'len', 'int', 'str') for y in ast.walk(st.value)):
                for t in st.targets:
                    for e in ([t] if isinstance(t, ast.Name) else getattr(t, 'elts', [])):
                        if isinstance(e, ast.Name):
                            names[e.id] = cached[callee[0]]
            r.ok(f"{caller.key}:{norm(cs.node)}")
        # containers built from cached results (list / comprehension / tuple holding the call) hand the taint to what is
        # taken out of them by subscript or iteration
        containers = set()
        for (callee, cs) in edges:
            if callee[0] in cached and isinstance(cs.stmt, ast.Assign):
                for y in ast.walk(cs.stmt.value):
                    if isinstance(y, (ast.List, ast.ListComp, ast.Tuple, ast.GeneratorExp, ast.Dict)) and any(cs.node is z for z in ast.walk(y)) \
                            and y is not cs.stmt.value.__class__ :
                        inner_sub = [z for z in ast.walk(y) if isinstance(z, ast.Subscript) and any(cs.node is w for w in ast.walk(z.value))]
                        for t in cs.stmt.targets:
                            if isinstance(t, ast.Name) and (isinstance(cs.stmt.value, (ast.List, ast.ListComp, ast.Tuple)) ):
                                containers.add(t.id)
                                names.pop(t.id, None)
        if containers:
            for x in own_walk(caller.node):
                if isinstance(x, ast.Assign) and len(x.targets) == 1 and isinstance(x.targets[0], ast.Name):
                    vals = [x.value.body, x.value.orelse] if isinstance(x.value, ast.IfExp) else [x.value]
                    for v in vals:
                        if isinstance(v, ast.Subscript) and isinstance(v.value, ast.Name) and v.value.id in containers and not isinstance(v.slice, ast.Slice):
                            names[x.targets[0].id] = next(iter(cached.values()))
                if isinstance(x, (ast.For, ast.comprehension)) and isinstance(x.target, ast.Name):
                    it = x.iter
                    base = it.value if isinstance(it, ast.Subscript) else it
                    if isinstance(base, ast.Name) and base.id in containers:
                        names[x.target.id] = next(iter(cached.values()))
        if not names:
            continue
        # plain aliases of a tainted name are tainted too
        for _ in range(2):
            for x in own_walk(caller.node):
                if isinstance(x, ast.Assign) and isinstance(x.value, ast.Name) and x.value.id in names:
                    for t in x.targets:
                        if isinstance(t, ast.Name):
                            names.setdefault(t.id, names[x.value.id])
        for x in own_walk(caller.node):
            bad = None
            if isinstance(x, ast.Call) and isinstance(x.func, ast.Attribute) and isinstance(x.func.value, ast.Name) \
                    and x.func.value.id in names and x.func.attr in LIST_MUTATORS:
                bad = (x.func.value.id, x)
            elif isinstance(x, ast.AugAssign) and isinstance(x.target, ast.Name) and x.target.id in names:
                # rebinding a str/int is harmless; lists/BitStores would be mutated in place
                t = fa.final_env.get(x.target.id, frozenset())
                if not (t and t <= {'str', 'int', 'float', 'bool', 'bytes', 'tuple'}):
                    bad = (x.target.id, x)
            elif isinstance(x, (ast.Subscript,)) and isinstance(x.ctx, (ast.Store, ast.Del)) and isinstance(x.value, ast.Name) \
                    and x.value.id in names:
                bad = (x.value.id, x)
            if bad:
                src = names[bad[0]]
                r.fail(caller.key, bad[1], f"'{bad[0]}' holds the cached result of {src.key} and is mutated in place: "
                       'every later cache hit sees the change', loc=caller.loc(bad[1]))
        # ... or handed, under its local name, to a function that changes that argument in place
        for (callee, cs) in edges:
            if callee[0] in mut_params and isinstance(cs.node, ast.Call):
                h = ctx.m.funcs[callee[0]]
                hp = h.params()
                off = 1 if (h.cls and not h.is_staticmethod() and isinstance(cs.node.func, ast.Attribute)) else 0
                for i, a in enumerate(cs.node.args):
                    if isinstance(a, ast.Name) and a.id in names and i + off < len(hp) and hp[i + off] in mut_params[callee[0]]:
                        r.fail(caller.key, cs.node, f"'{a.id}' holds the cached result of {names[a.id].key} and is handed to {h.key}, which changes its "
                               f"parameter '{hp[i + off]}' in place: every later cache hit sees the change", loc=caller.loc(cs.node))
    # inside the memoised functions: the returned object must not be a module-level mutable
    return r


def rule_F3(ctx):
    """Dtype objects (shared through two caches) are written only while being created."""
    r = RuleResult('F3', 'Dtype attributes are written only in _create/_set_scale; _set_scale only from _create')
    m = ctx.m
    allowed = {'dtypes:Dtype._create', 'dtypes:Dtype._set_scale'}
    n_writes = 0
    for n in ctx.callgraph():
        f = m.funcs[n[0]]
        fa = ctx.fa(n)
        for x in own_walk(f.node):
            if isinstance(x, ast.Attribute) and isinstance(x.ctx, (ast.Store, ast.Del)):
                t = fa.expr_type.get(id(x.value), frozenset())
                if 'Dtype' in t:
                    n_writes += 1
                    if f.key not in allowed:
                        r.fail(f.key, x, 'writes an attribute of a Dtype outside its construction: Dtype objects are '
                               'shared by the _create/_new_from_token caches', loc=f.loc(x))
                    else:
                        r.ok(f"{f.key}:{norm(x)}")
    if n_writes == 0:
        raise AnalysisError('no Dtype attribute write found at all (typing broke?)')
    ss = m.funcs.get('dtypes:Dtype._set_scale')
    if ss is not None:
        for (n, cs) in call_sites_of(ctx, ss):
            if n[0] != 'dtypes:Dtype._create':
                r.fail(n[0], cs.node, 'Dtype._set_scale called on an existing (possibly cached and shared) Dtype',
                       loc=ctx.m.funcs[n[0]].loc(cs.node))
            else:
                r.ok(f"call _set_scale from {n[0]}")
    return r


def _single_defs(f):
    """Locals of f assigned exactly once (name -> value node)."""
    cnt, rhs = {}, {}
    for x in own_walk(f.node):
        if isinstance(x, ast.Assign) and len(x.targets) == 1 and isinstance(x.targets[0], ast.Name):
            cnt[x.targets[0].id] = cnt.get(x.targets[0].id, 0) + 1
            rhs[x.targets[0].id] = x.value
    return {k: v for k, v in rhs.items() if cnt[k] == 1 and k not in f.params()}


def rule_G1(ctx):
    """The two mode tables assign the same slots; variants exist, differ and agree on parameters; nothing else rebinds."""
    m = ctx.m
    r = RuleResult('G1', 'lsb0/msb0 switch tables are complete and symmetric')
    l, s = m.switch['lsb0'], m.switch['msb0']
    f = m.set_lsb0
    for key in sorted(set(l) | set(s)):
        if key not in l or key not in s:
            miss = m.switch_names['lsb0'] if key not in l else m.switch_names['msb0']
            r.fail(f.key, f"{key[0]}.{key[1]}", f"slot assigned by one mode table only (missing from {miss}): toggling the "
                   'option back does not restore the other variant', loc=f.loc())
            continue
        for mode, d in (('lsb0', l), ('msb0', s)):
            vc, vf, ln = d[key]
            g = m.classes.get(vc) and m.classes[vc].methods.get(vf)
            if g is None or vc != key[0]:
                r.fail(f.key, f"{mode} {key[0]}.{key[1]} = {vc}.{vf}", 'table value is not a function defined on that class',
                       loc=f"{f.file()}:{ln}")
        a = m.classes[l[key][0]].methods.get(l[key][1]) if l[key][0] in m.classes else None
        b = m.classes[s[key][0]].methods.get(s[key][1]) if s[key][0] in m.classes else None
        if a is None or b is None:
            continue
        if a is b:
            r.fail(f.key, f"{key[0]}.{key[1]} -> {a.name} in both tables", 'both modes install the same function: the slot does '
                   'not switch', loc=f.loc())
            continue
        pa, pb = a.params(), b.params()
        if len(pa) != len(pb):
            r.fail(f.key, f"{key[0]}.{key[1]}: {a.name}{tuple(pa)} vs {b.name}{tuple(pb)}", 'variants take different parameter lists',
                   loc=a.loc())
            continue
        r.ok(f"{key[0]}.{key[1]}", {'instance': f"slot {key[0]}.{key[1]}", 'lsb0': a.name, 'msb0': b.name})
    # cross-wired pairs must be mirror images of each other
    for c, x, y in (('BitArray', '_ror', '_rol'), ('BitArray', '_append', '_prepend')):
        if all(k in l and k in s for k in ((c, x), (c, y))):
            if l[(c, x)][:2] != s[(c, y)][:2] or l[(c, y)][:2] != s[(c, x)][:2]:
                r.fail(f.key, f"{c}.{x}/{y}", f"lsb0 {x} must be msb0 {y} and vice versa (index mirror)", loc=f.loc())
            else:
                r.ok(f"{c}.{x}<->{y}")
    if getattr(m, 'switch_evaluated', False):
        # the tables above are what set_lsb0 installs when it is evaluated with the option true / false (model.py), so selection
        # and installation are right by construction; what remains is that the new value is stored first, and the entry points
        first = f.node.body[0]
        if isinstance(first, ast.Expr) and isinstance(first.value, ast.Constant) and len(f.node.body) > 1:
            first = f.node.body[1]
        if not (isinstance(first, ast.Assign) and ast.unparse(first.targets[0]) == 'self._lsb0' and 'value' in ast.unparse(first.value)):
            r.fail(f.key, first, 'set_lsb0 must store the new value before selecting the table', loc=f.loc(first))
        else:
            r.ok(first)
        r.ok('install (evaluated)', {'instance': f.key, 'verdict': 'slots installed per mode obtained by partial evaluation of set_lsb0', 'slots': len(l)})
        st = m.funcs.get('bitstring_options:Options.lsb0@setter')
        if st is None or 'set_lsb0' not in ast.unparse(st.node):
            r.fail('bitstring_options:Options.lsb0@setter', 'lsb0 setter', 'assigning options.lsb0 must call set_lsb0', loc='bitstring/bitstring_options.py')
        else:
            r.ok('lsb0 setter')
        return r
    # selection and installation
    ln, mn = m.switch_names['lsb0'], m.switch_names['msb0']
    from . import guards as G
    sel = [n for n in own_walk(f.node) if isinstance(n, ast.IfExp) and {ast.unparse(n.body), ast.unparse(n.orelse)} == {ln, mn}]
    if getattr(m, 'switch_pair_index', None) is not None:
        # one table of pairs: what is installed is <pair>[index]; the index must be the lsb0 position exactly when the option is true
        sets0 = [n for n in own_walk(f.node) if isinstance(n, ast.Call) and isinstance(n.func, ast.Name) and n.func.id == 'setattr' and len(n.args) == 3]
        if len(sets0) != 1 or not isinstance(sets0[0].args[2], ast.Subscript):
            raise AnalysisError('Options.set_lsb0: installation of the chosen half of the pairs not recognised (needs a human)')
        idx = G.expand(f, sets0[0].args[2].slice, {k: v for k, v in _single_defs(f).items()})
        want_true, want_false = m.switch_pair_index['lsb0'], m.switch_pair_index['msb0']
        got = None
        if isinstance(idx, ast.IfExp):
            pt, a, b = G.pos_if(idx)
            if '_lsb0' in ast.unparse(pt) and 'not ' not in ast.unparse(pt) and isinstance(a, ast.Constant) and isinstance(b, ast.Constant):
                got = (a.value, b.value)
        elif ast.unparse(idx) in ('self._lsb0', 'int(self._lsb0)', 'bool(self._lsb0)'):
            got = (1, 0)
        if got is None:
            raise AnalysisError('Options.set_lsb0: pair index expression not recognised (needs a human)')
        selnode, test, when_true = sets0[0], ast.parse('self._lsb0', mode='eval').body, (ln if got == (want_true, want_false) else '?')
        sel = []
    elif len(sel) == 1:
        test, a, b = G.pos_if(sel[0])
        when_true = ast.unparse(a)
        selnode = sel[0]
    else:
        # statement form: if <option>: methods = <lsb0 table> else: methods = <msb0 table>
        selnode = test = when_true = None
        for n in own_walk(f.node):
            if isinstance(n, ast.If):
                pt, pb, pe = G.pos_if(n)
                va = [s0.value for s0 in pb if isinstance(s0, ast.Assign) and isinstance(s0.value, ast.Name) and s0.value.id in (ln, mn)]
                vb = [s0.value for s0 in pe if isinstance(s0, ast.Assign) and isinstance(s0.value, ast.Name) and s0.value.id in (ln, mn)]
                if len(va) == 1 and len(vb) == 1 and {va[0].id, vb[0].id} == {ln, mn}:
                    selnode, test, when_true = n, pt, va[0].id
        if selnode is None:
            raise AnalysisError('Options.set_lsb0: table selection expression not recognised (needs a human)')
    sel = [selnode]
    if when_true != ln or '_lsb0' not in ast.unparse(test) or 'not ' in ast.unparse(test):
        r.fail(f.key, sel[0], 'the lsb0 table must be selected exactly when the option is true', loc=f.loc(sel[0]))
    else:
        r.ok(sel[0])
    first = f.node.body[0]
    if not (isinstance(first, ast.Assign) and ast.unparse(first.targets[0]) == 'self._lsb0' and 'value' in ast.unparse(first.value)):
        r.fail(f.key, first, 'set_lsb0 must store the new value before selecting the table', loc=f.loc(first))
    else:
        r.ok(first)
    sets = [n for n in own_walk(f.node) if isinstance(n, ast.Call) and isinstance(n.func, ast.Name) and n.func.id == 'setattr']
    loops = [n for n in own_walk(f.node) if isinstance(n, ast.For)]
    want_loops = 1 if getattr(m, 'switch_rows', None) is not None else 2        # flat rows need one loop, nested tables two
    if len(sets) != 1 or len(loops) != want_loops:
        raise AnalysisError('Options.set_lsb0: installation loop not recognised (needs a human)')
    for lp in loops:
        for x in ast.walk(lp):
            if isinstance(x, (ast.Break, ast.Continue, ast.If)):
                r.fail(f.key, lp, 'installation loop skips entries', loc=f.loc(lp))
    r.ok('install loop')
    # the lsb0 property setter goes through set_lsb0, and __init__ initialises through it
    st = m.funcs.get('bitstring_options:Options.lsb0@setter')
    if st is None or 'set_lsb0' not in ast.unparse(st.node):
        r.fail('bitstring_options:Options.lsb0@setter', 'lsb0 setter', 'assigning options.lsb0 must call set_lsb0', loc='bitstring/bitstring_options.py')
    else:
        r.ok('lsb0 setter')
    return r


# global-state writers, each with the reason it is allowed
GLOBAL_WRITERS = {
    'bitstring_options:Options.set_lsb0': 'the mode switch itself (G1)',
    'bitstring_options:Options.__new__': 'singleton instance',
    'bitstring_options:Options.__init__': "initialises the singleton's own fields",
    'bitstring_options:Options.mxfp_overflow@setter': 'option setter',
    'bitstring_options:Options.lsb0@setter': 'option setter',
    'bitstring_options:Options.bytealigned@setter': 'option setter',
    'bitstring_options:Colour.__new__': 'colour strings are re-derived from the argument on every construction',
    '__init__:_MyModuleType.bytealigned@setter': 'deprecated module-level alias of the option setter',
    '__init__:_MyModuleType.lsb0@setter': 'deprecated module-level alias of the option setter',
    'dtypes:Register.__new__': 'singleton instance',
    'dtypes:Register.add_dtype': 'registry construction at import',
    'dtypes:Register.add_dtype_alias': 'registry construction at import',
    'dtypes:Register.__delitem__': 'explicit registry API',
    'array_:Array._calculate_auto_scale': 'lazily built constant table (F4)',
}
OPTIONS_FIELDS = {'_lsb0', '_bytealigned', '_mxfp_overflow', 'no_color', 'mxfp_overflow', 'lsb0', 'bytealigned'}


def rule_N4(ctx):
    """No library function outside the option setters / registry writes options, class attributes or module globals."""
    m = ctx.m
    r = RuleResult('N4', 'option and global-state writes are confined to the setters')
    cg = ctx.callgraph()
    callers = {}
    for n0, edges in cg.items():
        for (callee, cs) in edges:
            callers.setdefault(callee[0], set()).add(n0[0])

    def root_of(g):
        while g.parent is not None:
            g = g.parent
        return g

    def sanctioned(g, seen=()):
        """One of the setters / registry writers, or a private helper that only they (transitively) call."""
        g = root_of(g)
        if ctx.reason_key(GLOBAL_WRITERS, g.key) is not None or (g.cls in ('Options', '_MyModuleType') and (g.key.endswith('@setter') or g.name in ('__init__', '__new__'))):
            return True
        if not g.name.startswith('_') or g.name.startswith('__') or g.key in seen:
            return False
        cs = callers.get(g.key, set())
        return bool(cs) and all(sanctioned(m.funcs[c], seen + (g.key,)) for c in cs if c != g.key)
    for n in cg:
        f = m.funcs[n[0]]
        fa = ctx.fa(n)
        root = f
        while root.parent is not None:
            root = root.parent
        writes = []
        for x in own_walk(f.node):
            if isinstance(x, ast.Global):
                writes.append((x, 'global statement'))
            if isinstance(x, ast.Call) and isinstance(x.func, ast.Name) and x.func.id in ('setattr', 'delattr') and x.args:
                t = fa.expr_type.get(id(x.args[0]), frozenset())
                if not t or any(tag.startswith('cls:') or tag == 'Options' or tag.startswith('module:bitstring') for tag in t):
                    writes.append((x, 'setattr on a class/module/options object'))
            if isinstance(x, ast.Attribute) and isinstance(x.ctx, (ast.Store, ast.Del)):
                t = fa.expr_type.get(id(x.value), frozenset())
                if any(tag.startswith('cls:') or tag.startswith('module:bitstring') for tag in t):
                    writes.append((x, 'write to a class or module attribute'))
                elif 'Options' in t or ctx.is_options_expr(f, x.value, fa):
                    writes.append((x, f'write to options.{x.attr}'))
            if isinstance(x, ast.Subscript) and isinstance(x.ctx, (ast.Store, ast.Del)):
                t = fa.expr_type.get(id(x.value), frozenset())
                base = x.value
                if isinstance(base, ast.Attribute):
                    bt = fa.expr_type.get(id(base.value), frozenset())
                    if any(tag.startswith('cls:') or tag.startswith('module:bitstring') for tag in bt):
                        writes.append((x, 'write into a class-level container'))
                elif isinstance(base, ast.Name) and base.id in m.modglobals[f.mod] and base.id not in fa.final_env:
                    writes.append((x, 'write into a module-level container'))
        for x, what in writes:
            if sanctioned(root):
                r.ok(f"{f.key}:{norm(x)}", reason=True)
            else:
                r.fail(f.key, x, f"{what} in a library function that is not one of the option/registry setters: the "
                       "caller's configuration does not survive the call", loc=f.loc(x))
        if not writes:
            r.ok(f.key, trivial=True)
    # the options object holds no state beyond its four settings
    opt = m.classes['Options']
    # a setting = a property with a setter (stored as _name) or a plain public attribute initialised in __init__
    fields = set()
    for pname, (g, st) in opt.props.items():
        if st is not None:
            fields |= {pname, '_' + pname}
    init = opt.methods.get('__init__')
    if init is not None:
        for x in own_walk(init.node):
            if isinstance(x, ast.Attribute) and isinstance(x.ctx, ast.Store) and isinstance(x.value, ast.Name) and x.value.id == 'self' \
                    and not x.attr.startswith('_'):
                fields.add(x.attr)
    OPTIONS_FIELDS_LOCAL = fields or OPTIONS_FIELDS
    for f in list(opt.methods.values()) + [p[1] for p in opt.props.values() if p[1] is not None and not isinstance(p[1], str)]:
        for x in own_walk(f.node):
            if isinstance(x, ast.Attribute) and isinstance(x.ctx, ast.Store) and isinstance(x.value, ast.Name) and x.value.id == 'self':
                if x.attr not in OPTIONS_FIELDS_LOCAL:
                    r.fail(f.key, x, 'the options singleton acquires state other than its settings; setting an option back '
                           'may not restore earlier behaviour', loc=f.loc(x))
                else:
                    r.ok(f"{f.key}:{x.attr}")
    return r


def rule_F4(ctx):
    """The lazily built Array._largest_values table is a function of literals only."""
    m = ctx.m
    r = RuleResult('F4', 'lazily built constant tables do not depend on options')
    f = m.funcs.get('array_:Array._calculate_auto_scale')
    if f is None:
        raise AnalysisError('anchor vanished: Array._calculate_auto_scale')
    tables = [n for n in own_walk(f.node) if isinstance(n, ast.Assign) and ast.unparse(n.targets[0]) == 'Array._largest_values'
              and isinstance(n.value, ast.Dict)]
    if not tables:
        raise AnalysisError('Array._largest_values table literal not found')
    fa = ctx.R.analyse(f, None)
    getter_nodes = set()
    for cs in fa.calls:
        if cs.kind == 'prop-get' and any(cs.node is v for t in tables for v in t.value.values):
            for (g, c) in cs.targets:
                getter_nodes.add(ctx.node(g, c))
    for t in tables:
        for k, v in zip(t.value.keys, t.value.values):
            ok = (isinstance(v, ast.Attribute) and isinstance(v.value, ast.Call) and ast.unparse(v.value.func) == 'Bits'
                  and len(v.value.args) == 1 and isinstance(v.value.args[0], ast.Constant)
                  and isinstance(v.value.args[0].value, str) and v.value.args[0].value[:2] in ('0b', '0x', '0o'))
            if not ok:
                r.fail(f.key, v, 'table entry is not Bits(<binary/hex literal>).<interpretation>: its value may depend on the '
                       'options in force when the table is first built', loc=f.loc(v))
            else:
                r.ok(v)
    parent = ctx.reachable(sorted(getter_nodes, key=str))
    for n in parent:
        g = m.funcs[n[0]]
        for opt, node in ctx.option_reads(g, n[1]):
            r.fail(f.key, f"options.{opt} via {g.key}", f"interpretation used to build the constant table reads options.{opt}", loc=g.loc(node))
    r.ok('getters', {'instance': 'Array._largest_values getters', 'reachable': len(parent)})
    return r


def rule_F5(ctx):
    """The cache key distinguishes everything the memoised function distinguishes: numbers that compare equal but behave
    differently (2 and 2.0 and True; 0.0 and -0.0) must not share an entry."""
    m = ctx.m
    r = RuleResult('F5', 'memoised functions with numeric parameters use a typed key; float-valued inputs are not memoised')
    for f in cached_functions(ctx):
        typed = any('typed=True' in d.replace(' ', '') for d in f.decorators)
        a = f.node.args
        for arg in a.posonlyargs + a.args + a.kwonlyargs:
            ann = ast.unparse(arg.annotation) if arg.annotation is not None else ''
            has_float = 'float' in ann
            has_int = 'int' in ann or 'bool' in ann
            if not (has_float or (has_int and 'Union' in ann and 'float' in ann)):
                r.ok(f'{f.key}:{arg.arg}', trivial=True)
                continue
            if has_float and has_int and not typed:
                r.fail(f.key, f'{arg.arg}: {ann} without typed=True', f"'{arg.arg}' may be an int or a float; lru_cache treats 2, 2.0 and True as the same key, "
                       'so the result computed for the first of them is returned for the others (e.g. an integer scale instead of a float one): the result '
                       'depends on which call came first', loc=f.loc())
            elif has_float and not has_int:
                r.fail(f.key, f'{arg.arg}: {ann} used as a cache key', f"'{arg.arg}' is a float: 0.0 and -0.0 compare equal and share a cache entry although they "
                       'encode differently, so whichever was seen first is returned for both', loc=f.loc())
            else:
                r.ok(f'{f.key}:{arg.arg}', {'instance': f.key, 'parameter': arg.arg, 'annotation': ann, 'typed': typed})
    return r

"""I: three-sorted dimension analysis (BITS / UNITS / ITEMS) of array_.py, B3 (atomic in-place operators),
N2a (zero-width items impossible)."""
from __future__ import annotations

import ast

from ..core import own_walk
from ..model import AnalysisError, FAMILY
from ..report import RuleResult, norm
from ..resolve import ANY
from . import guards as G

BITS, UNITS, ITEMS, NUM, UNK = 'BITS', 'UNITS', 'ITEMS', 'NUM', '?'


class Dim:
    def __init__(self, ctx, f, r):
        self.ctx, self.f, self.r = ctx, f, r
        self.fa = ctx.R.analyse(f, None)
        self.env = {}
        self.reported = set()

    def t(self, e):
        return self.fa.expr_type.get(id(e), ANY)

    def sort(self, e):
        fa = self.fa
        if isinstance(e, ast.Constant):
            return NUM if isinstance(e.value, (int, float)) and not isinstance(e.value, bool) else UNK
        if isinstance(e, ast.Name):
            return self.env.get(e.id, UNK)
        if isinstance(e, ast.Attribute):
            bt = self.t(e.value)
            if e.attr == 'bitlength' and ('Dtype' in bt or not bt):
                return BITS
            if e.attr == 'length' and 'Dtype' in bt:
                return UNITS
            if e.attr == 'itemsize' and 'Array' in bt:
                return BITS       # documented: "the length in bits of a single item"
            if e.attr == 'itemsize':
                return UNK        # array.array.itemsize is in bytes
            return UNK
        if isinstance(e, ast.Call):
            fn = e.func
            if isinstance(fn, ast.Name) and fn.id == 'len' and e.args:
                at = self.t(e.args[0])
                if at and at <= set(FAMILY):
                    return BITS
                if at and at <= {'Array'}:
                    return ITEMS
                if isinstance(e.args[0], ast.Call) and isinstance(e.args[0].func, ast.Name) and e.args[0].func.id == 'range':
                    return ITEMS
                return UNK
            if isinstance(fn, ast.Name) and fn.id in ('min', 'max') and e.args:
                ss = {self.sort(a) for a in e.args} - {NUM, UNK}
                return ss.pop() if len(ss) == 1 else UNK
            if isinstance(fn, ast.Name) and fn.id == 'int' and e.args:
                return self.sort(e.args[0])
            return UNK
        if isinstance(e, ast.BinOp):
            a, b = self.sort(e.left), self.sort(e.right)
            op = type(e.op)
            if op is ast.Mult:
                if {a, b} == {ITEMS, BITS}:
                    return BITS
                if {a, b} == {ITEMS, UNITS}:
                    return UNITS
                if a == NUM:
                    return b
                if b == NUM:
                    return a
                # an unclassified factor (a loop index, a count) times a width keeps the width's sort
                if a in (BITS, UNITS) and b in (UNK, ITEMS):
                    return a
                if b in (BITS, UNITS) and a in (UNK, ITEMS):
                    return b
                return UNK
            if op in (ast.Add, ast.Sub):
                if a == NUM:
                    return b
                if b == NUM:
                    return a
                if a == b:
                    return a
                if {a, b} == {BITS, UNITS}:
                    self.flag(e, f'adds/subtracts a bit count and a unit count ({a} {"+" if op is ast.Add else "-"} {b})')
                    return BITS
                return UNK
            if op in (ast.FloorDiv, ast.Div):
                if a == BITS and b == BITS:
                    return ITEMS
                if a == BITS and b == UNITS:
                    self.flag(e, "divides a length in bits by Dtype.length, which counts units of bits_per_item (8 for 'bytes'), not bits")
                    return ITEMS
                if b == NUM:
                    return a
                return UNK
            if op is ast.Mod:
                if a == BITS and b == UNITS:
                    self.flag(e, 'takes a bit length modulo Dtype.length (units of bits_per_item, not bits)')
                    return BITS
                if a == BITS and b == BITS:
                    return BITS
                return UNK
            return UNK
        if isinstance(e, ast.UnaryOp):
            return self.sort(e.operand)
        if isinstance(e, ast.IfExp):
            a, b = self.sort(e.body), self.sort(e.orelse)
            return a if a == b or b in (NUM, UNK) else (b if a in (NUM, UNK) else UNK)
        return UNK

    def flag(self, e, why):
        k = norm(e)
        if k in self.reported:
            return
        self.reported.add(k)
        self.r.fail(self.f.key, e, f"{why}: for any dtype whose unit is not one bit (bytesN) item i is not read from bits [i*w, (i+1)*w)",
                    loc=self.f.loc(e))

    def need_bits(self, e, what):
        s = self.sort(e)
        if s == UNITS:
            self.flag(e, f"{what} is a unit count (Dtype.length) where a bit count is needed")
        elif s in (BITS, NUM):
            self.r.ok(None)
        else:
            self.r.ok(None, trivial=True)

    def run(self):
        f = self.f
        # two passes of assignments for local sorts
        for _ in range(2):
            for x in own_walk(f.node):
                if isinstance(x, ast.Assign) and len(x.targets) == 1:
                    tg = x.targets[0]
                    if isinstance(tg, ast.Name):
                        s = self.sort(x.value)
                        if s != UNK:
                            self.env[tg.id] = s
                    elif isinstance(tg, ast.Tuple) and isinstance(x.value, ast.Call) and isinstance(x.value.func, ast.Attribute) \
                            and x.value.func.attr == 'indices':
                        for el in tg.elts:
                            if isinstance(el, ast.Name):
                                self.env[el.id] = ITEMS
                elif isinstance(x, (ast.For, ast.comprehension)) and isinstance(x.target, ast.Name) and isinstance(x.iter, ast.Call):
                    it = x.iter
                    if isinstance(it.func, ast.Name) and it.func.id == 'reversed' and it.args and isinstance(it.args[0], ast.Call):
                        it = it.args[0]
                    if isinstance(it.func, ast.Name) and it.func.id == 'range' and it.args:
                        ss = {self.sort(a) for a in it.args} - {NUM, UNK}
                        if len(ss) == 1:
                            self.env[x.target.id] = ss.pop()
                        elif ss == {BITS, UNITS}:
                            self.flag(it, 'range() mixes bit counts and unit counts')
                elif isinstance(x, ast.AugAssign) and isinstance(x.target, ast.Name):
                    a, b = self.env.get(x.target.id, UNK), self.sort(x.value)
                    if {a, b} == {BITS, UNITS}:
                        self.flag(x, 'advances a bit offset by a unit count')
        if f.name == 'key' or 'key' in f.params():
            pass
        for p in f.params():
            if p in ('key', 'i') and p not in self.env:
                self.env[p] = ITEMS
        self.reported.clear() if False else None
        # sinks
        for x in own_walk(f.node):
            if isinstance(x, ast.Subscript):
                bt = self.t(x.value)
                if bt and bt <= set(FAMILY) and isinstance(x.slice, ast.Slice):
                    for b in (x.slice.lower, x.slice.upper):
                        if b is not None:
                            self.need_bits(b, 'a slice bound of the data buffer')
            if isinstance(x, ast.Call):
                fn = x.func
                if isinstance(fn, ast.Name) and fn.id == 'slice':
                    for a in x.args:
                        self.need_bits(a, 'a slice bound of the data buffer')
                if isinstance(fn, ast.Attribute) and fn.attr in ('overwrite', 'insert') and len(x.args) >= 2 and (self.t(fn.value) & set(FAMILY)):
                    self.need_bits(x.args[1], f'the bit position given to {fn.attr}()')
                if isinstance(fn, ast.Attribute) and fn.attr in ('read_fn', '_read_fn'):
                    for kw in x.keywords:
                        if kw.arg == 'start':
                            self.need_bits(kw.value, 'the bit position given to read_fn')
                if isinstance(fn, ast.Name) and fn.id == 'BitArray' and len(x.args) == 1 and not x.keywords:
                    if self.sort(x.args[0]) != UNK:
                        self.need_bits(x.args[0], 'the length in bits of a new BitArray')
                if isinstance(fn, ast.Name) and fn.id == 'range':
                    pass
            if isinstance(x, ast.Compare) and len(x.ops) == 1:
                a, b = self.sort(x.left), self.sort(x.comparators[0])
                if {a, b} == {BITS, UNITS}:
                    self.flag(x, 'compares a length in bits with Dtype.length (units)')
                elif a != UNK and b != UNK:
                    self.r.ok(None)
            if isinstance(x, ast.Return) and x.value is not None and f.name == 'itemsize':
                if self.sort(x.value) == UNITS:
                    self.flag(x.value, 'itemsize is documented in bits but returns Dtype.length')
                else:
                    self.r.ok(x.value)
        # items are addressed from the start of the buffer: only the trailing bits may be addressed from the end
        trailing = set()
        for x in own_walk(f.node):
            if isinstance(x, ast.Assign) and len(x.targets) == 1 and isinstance(x.targets[0], ast.Name) and isinstance(x.value, ast.BinOp) \
                    and isinstance(x.value.op, ast.Mod) and self.sort(x.value.left) == BITS:
                trailing.add(x.targets[0].id)
        for x in own_walk(f.node):
            sub = None
            if isinstance(x, ast.Subscript) and (self.t(x.value) & set(FAMILY)) and isinstance(x.slice, ast.Slice):
                sub = x
            if sub is None:
                continue
            for b in (sub.slice.lower, sub.slice.upper):
                if isinstance(b, ast.UnaryOp) and isinstance(b.op, ast.USub):
                    inner = b.operand
                    if isinstance(inner, ast.Name) and inner.id in trailing:
                        self.r.ok(None)
                    else:
                        mutating = isinstance(sub.ctx, (ast.Store, ast.Del))
                        if mutating or self.sort(inner) in (BITS, UNITS):
                            self.flag(sub, "addresses the data buffer from its END by an item width; items live at i*w from the START and "
                                           "any trailing bits sit at the end, so this touches the trailing bits instead of the item")
        # a dtype token is name + length in UNITS: a bit count next to a dtype name in a string is the wrong quantity
        for x in own_walk(f.node):
            if isinstance(x, ast.JoinedStr):
                vals = [v for v in x.values if isinstance(v, ast.FormattedValue)]
                for a, b in zip(vals, vals[1:]):
                    if isinstance(a.value, ast.Attribute) and a.value.attr in ('name', '_name') and self.sort(b.value) == BITS \
                            and x.values.index(b) == x.values.index(a) + 1:
                        self.flag(b.value, "builds a dtype token as <name><bits>; the number in a token counts the dtype's units (bytes for 'bytes'), not bits")
            if isinstance(x, ast.Call) and ast.unparse(x.func) == 'Dtype' and len(x.args) >= 2 and self.sort(x.args[1]) == BITS:
                self.flag(x.args[1], "passes a bit count as the length of a Dtype; Dtype lengths count units of bits_per_item")
        # force evaluation of every arithmetic expression (reports mixed operations wherever they occur)
        for x in own_walk(f.node):
            if isinstance(x, ast.BinOp):
                self.sort(x)


def rule_I(ctx):
    """Bit counts, unit counts and item counts are never mixed in Array."""
    m = ctx.m
    r = RuleResult('I', 'dimension analysis of array_.py: bits vs Dtype units vs items')
    arr = m.classes.get('Array')
    if arr is None:
        raise AnalysisError('anchor vanished: class Array')
    n = 0
    for f in [g for g in m.funcs.values() if g.mod == 'array_' and g.cls == 'Array']:
        n += 1
        Dim(ctx, f, r).run()
        r.constructs.add(f.key)
    occ = sum(1 for g in m.funcs.values() if g.mod == 'array_' for x in own_walk(g.node)
              if isinstance(x, ast.Attribute) and x.attr in ('length', 'bitlength', 'itemsize'))
    if occ < 40:
        raise AnalysisError(f'only {occ} occurrences of length/bitlength/itemsize in array_.py (floor 40)')
    r.samples.append({'instance': 'array_.py', 'functions': n, 'width_expressions': occ})
    return r


def rule_B3(ctx):
    """Array in-place operators build the new data in a local and install it once, after the last possible raise."""
    m = ctx.m
    r = RuleResult('B3', 'Array in-place element-wise operators are atomic')
    arr = m.classes['Array']
    inplace = [f for n, f in arr.methods.items() if n.startswith('__i') and n.endswith('__') and n not in ('__init__', '__iter__')]
    if len(inplace) < 9:
        raise AnalysisError(f'only {len(inplace)} in-place operators on Array')
    helpers = set()
    for f in inplace:
        for x in own_walk(f.node):
            if isinstance(x, ast.Call) and isinstance(x.func, ast.Attribute) and ast.unparse(x.func.value) == 'self' and x.func.attr.startswith('_apply'):
                helpers.add(x.func.attr)
    for h in sorted(helpers):
        f = arr.methods.get(h)
        if f is None:
            raise AnalysisError(f'Array.{h} not found')
        writes = [x for x in own_walk(f.node) if (isinstance(x, (ast.Assign, ast.AugAssign)) and any(
            ast.unparse(t).startswith('self.data') for t in (x.targets if isinstance(x, ast.Assign) else [x.target])))
            or (isinstance(x, ast.Call) and isinstance(x.func, ast.Attribute) and ast.unparse(x.func.value) == 'self.data'
                and x.func.attr in ('append', 'overwrite', 'insert', 'prepend', 'clear', 'set', 'invert', '__setitem__', '__delitem__'))]
        raises = [x for x in own_walk(f.node) if isinstance(x, ast.Raise)]
        if not writes:
            r.ok(f'Array.{h}', {'instance': f'Array.{h}', 'verdict': 'returns a new Array, self untouched'})
            continue
        first_w = min(x.lineno for x in writes)
        in_loop = any(any(w is y for y in ast.walk(lp)) for lp in own_walk(f.node) if isinstance(lp, (ast.For, ast.While)) for w in writes)
        late = [x for x in raises if x.lineno > first_w]
        # element-wise failure inside the loop: writes inside a loop whose body can fail make the operator non-atomic
        risky_loop = in_loop and any(isinstance(y, ast.Call) and isinstance(y.func, ast.Name) and y.func.id == 'op'
                                     for lp in own_walk(f.node) if isinstance(lp, (ast.For, ast.While)) for y in ast.walk(lp))
        # bitwise ops on equal-length bit fields cannot fail per element once the length check passed
        guarded_len = any(isinstance(x, ast.If) and 'len(value)' in ast.unparse(x.test) and G.raises_in(x.body) and x.lineno < first_w for x in own_walk(f.node))
        if late or (risky_loop and not guarded_len):
            r.fail(f.key, f'{h}: self.data written before the last possible failure', 'a failing in-place operator must leave the Array '
                   'unchanged: build the new data in a local and assign self.data once at the end', loc=f.loc(writes[0]))
        else:
            r.ok(f'Array.{h}', {'instance': f'Array.{h}', 'first_write_line_after_last_raise': True})
    return r


def rule_N2a(ctx):
    """An Array's item width is never zero: _set_dtype rejects zero-length dtypes before installing them."""
    m = ctx.m
    r = RuleResult('N2a', 'zero-width Array items are rejected where the dtype is installed')
    arr = m.classes['Array']
    writers = [f for f in m.funcs.values() if any(isinstance(x, ast.Attribute) and x.attr == '_dtype' and isinstance(x.ctx, ast.Store)
                                                   for x in own_walk(f.node))]
    if not writers:
        raise AnalysisError('no writer of Array._dtype found')
    for f in writers:
        stores = [x for x in own_walk(f.node) if isinstance(x, ast.Assign) and any(isinstance(t, ast.Attribute) and t.attr == '_dtype' for t in x.targets)]
        # a rejection of a zero / falsy width must be executed on every path that reaches the end of the function
        def zero_test(t):
            txt = ast.unparse(t)
            return (('length' in txt or 'bitlength' in txt) and (txt.endswith('== 0') or txt.startswith('not ') or '<= 0' in txt or '< 1' in txt))
        guard = None
        for s in G.body_wo_doc(f):
            if isinstance(s, ast.If) and any(zero_test(d) for d in G.disjuncts(s.test)) and G.raises_in(s.body):
                guard = s
        nested_ok = all(any(isinstance(y, ast.If) and any(zero_test(d) for d in G.disjuncts(y.test)) and G.raises_in(y.body)
                            for y in own_walk(f.node) if getattr(y, 'lineno', 10 ** 9) < st.lineno) for st in stores)
        if guard is not None or nested_ok:
            r.ok(f.key, {'instance': f.key, 'guard': norm(guard.test) if guard is not None else 'before each store'})
        else:
            r.fail(f.key, 'zero-length dtype accepted', "a dtype of length 0 (e.g. 'uint0', 'hex0', 'bits0') can be installed as an Array's dtype; "
                   'len(), indexing, iteration and pp then divide by the item width: ZeroDivisionError', loc=f.loc(stores[0]),
                   extra={'props': ['C14', 'C20']})
    return r


def rule_IDX(ctx):
    """Every Array method that turns an item-index parameter into a bit offset first normalises a negative index by the ITEM count."""
    m = ctx.m
    r = RuleResult('IDX', 'negative item indices are normalised with len(self) (items) before they become bit offsets (sibling agreement)')
    arr = m.classes.get('Array')
    if arr is None:
        raise AnalysisError('anchor vanished: class Array')
    n = 0
    for name, f in sorted(arr.methods.items()):
        for p in f.params()[1:]:
            # the parameter (as an int) is multiplied by a width somewhere in the function
            mults = [x for x in own_walk(f.node) if isinstance(x, ast.BinOp) and isinstance(x.op, ast.Mult)
                     and any(isinstance(s, ast.Name) and s.id == p for s in (x.left, x.right))
                     and any('length' in ast.unparse(s) or 'itemsize' in ast.unparse(s) for s in (x.left, x.right))]
            # ... and the product is used as a POSITION (slice bound, start=, insert/overwrite position), not as a size
            sinks = set()
            for x in own_walk(f.node):
                if isinstance(x, ast.Subscript) and isinstance(x.slice, ast.Slice):
                    for b in (x.slice.lower, x.slice.upper):
                        if b is not None:
                            sinks |= {id(y) for y in ast.walk(b)}
                if isinstance(x, ast.Call):
                    fn = x.func
                    if isinstance(fn, ast.Attribute) and fn.attr in ('insert', 'overwrite') and len(x.args) >= 2:
                        sinks |= {id(y) for y in ast.walk(x.args[1])}
                    if isinstance(fn, ast.Name) and fn.id == 'slice':
                        for a in x.args:
                            sinks |= {id(y) for y in ast.walk(a)}
                    for kw in x.keywords:
                        if kw.arg == 'start':
                            sinks |= {id(y) for y in ast.walk(kw.value)}
                if isinstance(x, ast.Assign) and len(x.targets) == 1 and isinstance(x.targets[0], ast.Name) and x.targets[0].id == 'start':
                    sinks |= {id(y) for y in ast.walk(x.value)}
            # a product first given a name: `offset = width * i` ... `data[offset:offset + width]`
            for _ in range(2):
                for x in own_walk(f.node):
                    if isinstance(x, ast.Assign) and len(x.targets) == 1 and isinstance(x.targets[0], ast.Name) and any(
                            isinstance(y, ast.Name) and y.id == x.targets[0].id and isinstance(y.ctx, ast.Load) and id(y) in sinks for y in own_walk(f.node)):
                        sinks |= {id(y) for y in ast.walk(x.value)}
            mults = [x for x in mults if id(x) in sinks]
            if not mults:
                continue
            n += 1
            first = min(x.lineno for x in mults)
            norm_ok = False
            for i in own_walk(f.node):
                if isinstance(i, ast.If) and i.lineno < first and any(G.test_is_negative(d, p) for d in G.disjuncts(i.test)):
                    body_txt = ' '.join(ast.unparse(s) for s in i.body)
                    if 'len(self)' in body_txt and (f'{p} +=' in body_txt or f'{p} =' in body_txt):
                        norm_ok = True
            if norm_ok:
                r.ok(f'Array.{name}({p})', {'instance': f'Array.{name}', 'index': p, 'verdict': 'negative index normalised by len(self)'})
            else:
                r.fail(f.key, f'{name}: {p} * width without negative-index normalisation', f"Array.{name} multiplies the item index '{p}' by the item "
                       'width without first adding len(self) to a negative value (its siblings do): the negative bit offset is then counted from '
                       'the END of the data buffer, which includes any trailing bits — the item lands in the middle of another one', loc=f.loc(mults[0]))
    if n < 2:
        raise AnalysisError(f'only {n} index-to-offset conversions found in Array (floor 2)')
    return r


def rule_TRAIL(ctx):
    """An Array's data may end in trailing bits (fewer than one item), so "the end of the data" is not "the end of the last
    item".  A method that addresses self.data from its end - a negative slice bound, _truncateright, a position computed as
    len(self.data) - k - is right only if the offset IS the trailing-bit count (len(self.data) % width) or the method has refused
    trailing bits beforehand; otherwise it takes the item from the wrong place (and destroys the trailing bits)."""
    m = ctx.m
    r = RuleResult('TRAIL', 'Array methods address the data from its end only by the trailing-bit count or after refusing trailing bits')
    arr = m.classes.get('Array')
    if arr is None:
        raise AnalysisError('anchor vanished: class Array')

    def is_data(e, aliases):
        return ast.unparse(e) == 'self.data' or (isinstance(e, ast.Name) and e.id in aliases)

    def is_len_data(e, aliases):
        return isinstance(e, ast.Call) and isinstance(e.func, ast.Name) and e.func.id == 'len' and len(e.args) == 1 and is_data(e.args[0], aliases)
    n = 0
    for name, f in sorted(arr.methods.items()):
        aliases = {t.id for x in own_walk(f.node) if isinstance(x, ast.Assign) and ast.unparse(x.value) == 'self.data' for t in x.targets if isinstance(t, ast.Name)}
        stores = {}
        for x in own_walk(f.node):
            if isinstance(x, (ast.Assign, ast.AugAssign, ast.For)):
                for t in (x.targets if isinstance(x, ast.Assign) else [x.target]):
                    for y in ast.walk(t):
                        if isinstance(y, ast.Name):
                            stores[y.id] = stores.get(y.id, 0) + 1
        al = {x.targets[0].id: x.value for x in own_walk(f.node) if isinstance(x, ast.Assign) and len(x.targets) == 1 and isinstance(x.targets[0], ast.Name)
              and stores.get(x.targets[0].id) == 1 and x.targets[0].id not in f.params()
              and isinstance(x.value, ast.BinOp) and isinstance(x.value.op, ast.Mod) and is_len_data(x.value.left, aliases)}

        def is_trailing(e):
            e = G.expand(f, e, al)
            return isinstance(e, ast.BinOp) and isinstance(e.op, ast.Mod) and is_len_data(e.left, aliases)
        refused = False
        for st in G.body_wo_doc(f):
            if isinstance(st, ast.If) and G.always_raises(st.body):
                for d in G.disjuncts(G.expand(f, st.test, al)):
                    if is_trailing(G.canon_truth(d)):
                        refused = True
        sites = []
        for x in own_walk(f.node):
            if isinstance(x, ast.Subscript) and is_data(x.value, aliases) and isinstance(x.slice, ast.Slice):
                for b in (x.slice.lower, x.slice.upper):
                    if isinstance(b, ast.UnaryOp) and isinstance(b.op, ast.USub):
                        sites.append((x, b.operand))
                    elif isinstance(b, ast.Constant) and isinstance(b.value, int) and b.value < 0:
                        sites.append((x, None))
            if isinstance(x, ast.Subscript) and is_data(x.value, aliases) and not isinstance(x.slice, ast.Slice):
                b = x.slice
                if (isinstance(b, ast.UnaryOp) and isinstance(b.op, ast.USub)) or (isinstance(b, ast.Constant) and isinstance(b.value, int) and b.value < 0):
                    sites.append((x, None))
            if isinstance(x, ast.Call) and isinstance(x.func, ast.Attribute) and x.func.attr in ('_truncateright', 'pop') and is_data(x.func.value, aliases):
                sites.append((x, x.args[0] if x.args and x.func.attr == '_truncateright' else None))
            # a position counted back from the end: len(self.data) - k used as a slice bound / position of self.data
            if isinstance(x, ast.Assign) and len(x.targets) == 1 and isinstance(x.targets[0], ast.Name) and isinstance(x.value, ast.BinOp) \
                    and isinstance(x.value.op, ast.Sub) and any(is_len_data(y, aliases) for y in ast.walk(x.value.left)) and not is_trailing(x.value):
                nm = x.targets[0].id
                used = any(isinstance(y, ast.Subscript) and is_data(y.value, aliases) and any(isinstance(z, ast.Name) and z.id == nm for z in ast.walk(y.slice))
                           for y in own_walk(f.node))
                if used:
                    sites.append((x, None))
        for x, off in sites:
            n += 1
            if off is not None and is_trailing(off):
                r.ok(f'{f.key}:{norm(x)}', {'instance': f.key, 'access': norm(x)[:60], 'verdict': 'offset is the trailing-bit count'})
            elif refused:
                r.ok(f'{f.key}:{norm(x)}', {'instance': f.key, 'access': norm(x)[:60], 'verdict': 'trailing bits refused beforehand'})
            else:
                r.fail(f.key, x, f"Array.{name} addresses its data from the END ({norm(x)[:60]}): with trailing bits (a data length that is not a whole "
                       'number of items) that is not where the last item is - the wrong bits are taken and the trailing bits are destroyed', loc=f.loc(x))
    # ... and a method that has refused trailing bits must not create them: what it appends is whole items - never the raw
    # conversion of caller-supplied data (a file, a bytes object) of whatever length it happens to have
    n_grow = 0
    for name, f in sorted(arr.methods.items()):
        refused = False
        stores = {}
        for x in own_walk(f.node):
            if isinstance(x, (ast.Assign, ast.AugAssign, ast.For)):
                for t in (x.targets if isinstance(x, ast.Assign) else [x.target]):
                    for y in ast.walk(t):
                        if isinstance(y, ast.Name):
                            stores[y.id] = stores.get(y.id, 0) + 1
        al = {x.targets[0].id: x.value for x in own_walk(f.node) if isinstance(x, ast.Assign) and len(x.targets) == 1 and isinstance(x.targets[0], ast.Name)
              and stores.get(x.targets[0].id) == 1 and isinstance(x.value, ast.BinOp) and isinstance(x.value.op, ast.Mod)}
        for st in G.body_wo_doc(f):
            if isinstance(st, ast.If) and G.always_raises(st.body):
                for d in G.disjuncts(G.expand(f, st.test, al)):
                    c = G.canon_truth(d)
                    if isinstance(c, ast.BinOp) and isinstance(c.op, ast.Mod) and ast.unparse(c.left) == 'len(self.data)':
                        refused = True
        if not refused:
            continue
        raw = {}
        for x in own_walk(f.node):
            if isinstance(x, ast.Assign) and len(x.targets) == 1 and isinstance(x.targets[0], ast.Name) and isinstance(x.value, ast.Call) \
                    and ast.unparse(x.value.func).split('.')[-1] in ('Bits', 'BitArray', 'BitStream', 'ConstBitStream') and x.value.args \
                    and any(isinstance(y, ast.Name) and y.id in f.params() for y in ast.walk(x.value.args[0])) and stores.get(x.targets[0].id) == 1:
                raw[x.targets[0].id] = x
        for x in own_walk(f.node):
            v = None
            if isinstance(x, ast.AugAssign) and isinstance(x.op, ast.Add) and ast.unparse(x.target) == 'self.data':
                v = x.value
            elif isinstance(x, ast.Call) and isinstance(x.func, ast.Attribute) and x.func.attr in ('append', 'extend') and ast.unparse(x.func.value) == 'self.data' and x.args:
                v = x.args[0]
            if v is None:
                continue
            n_grow += 1
            if isinstance(v, ast.Name) and v.id in raw:
                r.fail(f.key, x, f"Array.{name} has refused trailing bits, then appends '{v.id}' = {norm(raw[v.id].value)[:50]} whole, whatever its length: data that is not "
                       'a whole number of items leaves trailing bits behind (later appends fail, tobytes() is too long)', loc=f.loc(x))
            else:
                r.ok(f'{f.key}:{norm(x)}')
    # ... and what a public method writes into the MIDDLE of the data (slice assignment, insert, overwrite) is encoded items: the
    # raw .data of another Array may carry that Array's trailing bits, which would land between two items
    n_mid = 0
    for name, f in sorted(arr.methods.items()):
        if name.startswith('_') and not name.startswith('__'):
            continue
        for x in own_walk(f.node):
            v = None
            if isinstance(x, ast.Assign) and len(x.targets) == 1 and isinstance(x.targets[0], ast.Subscript) and ast.unparse(x.targets[0].value) == 'self.data' \
                    and isinstance(x.targets[0].slice, ast.Slice):
                v = x.value
            elif isinstance(x, ast.Call) and isinstance(x.func, ast.Attribute) and x.func.attr in ('insert', 'overwrite') and ast.unparse(x.func.value) == 'self.data' and x.args:
                v = x.args[0]
            if v is None:
                continue
            n_mid += 1
            srcs = [v]
            if isinstance(v, ast.Name):
                srcs = [y.value for y in own_walk(f.node) if isinstance(y, ast.Assign) and any(isinstance(t, ast.Name) and t.id == v.id for t in y.targets)] or [v]
            rawdata = [e for e in srcs if isinstance(e, ast.Attribute) and e.attr == 'data' and ast.unparse(e.value) != 'self']
            if rawdata:
                r.fail(f.key, x, f"Array.{name} writes {norm(rawdata[0])} - the raw data of another Array, trailing bits included - between items of this one: "
                       'with trailing bits there, every later item shifts (encode the items, or cut the data to whole items first)', loc=f.loc(x))
            else:
                r.ok(f'{f.key}:{norm(x)}')
    if n < 4:
        raise AnalysisError(f'only {n} end-relative accesses of Array data found (floor 4)')
    if n_mid < 3:
        raise AnalysisError(f'only {n_mid} writes into the middle of Array data found (floor 3)')
    if n_grow < 3:
        raise AnalysisError(f'only {n_grow} growth sites of Array data behind a trailing-bits refusal found (floor 3)')
    return r


def rule_TY1(ctx):
    """math.* is only applied to values that are numbers on every path (element values may be str, bytes or Bits)."""
    m = ctx.m
    r = RuleResult('TY1', 'element values: numeric-only calls are type-guarded; count/index/in work on decoded items; a promotion tie goes to the first type')
    n = 0
    for f in m.funcs.values():
        if f.mod != 'array_':
            continue
        anns = {a.arg: ast.unparse(a.annotation) for a in f.node.args.posonlyargs + f.node.args.args + f.node.args.kwonlyargs if a.annotation is not None}
        for x in own_walk(f.node):
            if isinstance(x, ast.Call) and ast.unparse(x.func) in ('math.isnan', 'math.isinf', 'math.isfinite', 'math.floor', 'math.ceil') and x.args \
                    and isinstance(x.args[0], ast.Name):
                p = x.args[0].id
                ann = anns.get(p)
                if ann is None:
                    continue
                n += 1
                broad = 'ElementType' in ann or any(t in ann for t in ('str', 'bytes', 'Bits', 'Any'))
                guarded = any(isinstance(i, (ast.If, ast.IfExp, ast.BoolOp)) and f'isinstance({p}, ' in ast.unparse(i) and any(x is y for y in ast.walk(i))
                              for i in own_walk(f.node))
                if broad and not guarded:
                    r.fail(f.key, x, f"'{p}' is annotated {ann}: for Arrays of hex/bin/oct/bytes/bits items the value is not a number and {ast.unparse(x.func)} raises "
                           'TypeError, so the operation fails for those dtypes instead of behaving like the list of items', loc=f.loc(x),
                           extra={'props': ['C14']})
                else:
                    r.ok(x)
    # value-level questions (count, index, in) are answered on the decoded items, not on encodings: equal values can have different
    # encodings (0.0 / -0.0, 'AB' / 'ab' for hex) and a value that is rounded on encoding equals no stored item
    arr = m.classes.get('Array')
    for nm in ('count', 'index', '__contains__'):
        f = arr.methods.get(nm) if arr else None
        if f is None:
            continue
        enc = [x for x in own_walk(f.node) if isinstance(x, ast.Call) and isinstance(x.func, ast.Attribute) and x.func.attr in ('_create_element', 'build')]
        if enc:
            r.fail(f.key, enc[0], f'Array.{nm} encodes the value it is asked about ({norm(enc[0])}) and compares encodings: -0.0 and 0.0, values that are rounded '
                   "on encoding, and differently spelled hex/bin strings then count differently from the list of items", loc=f.loc(enc[0]), extra={'props': ['C14']})
        else:
            r.ok(f'Array.{nm} works on decoded items')
    # documented promotion rule 6: "in a tie the first type wins" - wherever two types of different name are ranked by length, the
    # branch taken for EQUAL lengths must return the first parameter
    pf = arr.methods.get('_promotetype') if arr else None
    if pf is not None and len(pf.params()) >= 3:
        first, second = pf.params()[1], pf.params()[2]
        for x in own_walk(pf.node):
            if not isinstance(x, ast.IfExp):
                continue
            t = x.test
            if not (isinstance(t, ast.Compare) and len(t.ops) == 1 and isinstance(t.ops[0], (ast.Gt, ast.GtE, ast.Lt, ast.LtE))):
                continue
            sides = {ast.unparse(t.left), ast.unparse(t.comparators[0])}
            if not any(sides == {f'{first}.{a}', f'{second}.{a}'} for a in ('length', 'bitlength')):
                continue
            # skip the same-name case (the two types then differ at most in scale)
            if any(isinstance(i, ast.If) and '.name ==' in ast.unparse(i.test) and any(x is y for b in i.body for y in ast.walk(b)) for i in own_walk(pf.node)):
                continue
            on_equal = x.body if isinstance(t.ops[0], (ast.GtE, ast.LtE)) else x.orelse
            if ast.unparse(on_equal) != first:
                r.fail(pf.key, x, f"for two types of equal length this returns '{ast.unparse(on_equal)}': the documented rule is that in a tie the first type "
                       f"('{first}') wins, so a + b gets b's dtype (and byte order) when only the names differ", loc=pf.loc(x), extra={'props': ['C14']})
            else:
                r.ok(f'promotion tie: {norm(x)}')
    if n == 0:
        r.ok('no numeric-only call on element values', trivial=True)
    return r


def _dtype_eq_fields(m):
    """Fields Dtype.__eq__ compares (read from its body), as public attribute names."""
    f = m.funcs.get('dtypes:Dtype.__eq__')
    if f is None:
        return set()
    out = set()
    for x in own_walk(f.node):
        if isinstance(x, ast.Compare) and isinstance(x.left, ast.Attribute) and isinstance(x.left.value, ast.Name) and x.left.value.id == 'self':
            out.add(x.left.attr.lstrip('_'))
    return out


def rule_XDT(ctx):
    """Raw item data of another container (an Array's .data, an array.array's bytes) may be spliced into, or compared with,
    self.data only when the two dtypes agree in everything that decides what the bits mean: name, width and scale.  With
    a different scale the same bits are different values, so splicing bypasses the range check of _create_element and
    equals() calls different items equal.  (Dtype.__eq__ compares name and length only, so it is not a full test.)"""
    m = ctx.m
    r = RuleResult('XDT', 'raw data crosses from one Array/array into another only under a dtype test covering name, width and scale')
    arr = m.classes.get('Array')
    if arr is None:
        raise AnalysisError('anchor vanished: class Array')
    eqf = _dtype_eq_fields(m)
    n = 0
    for name, f in sorted(arr.methods.items()):
        narrowed = {}          # foreign name -> (kind, branch If)
        for x in own_walk(f.node):
            if isinstance(x, ast.If):
                pt, pbody, _ = G.pos_if(x)
                for c in ast.walk(pt):
                    if isinstance(c, ast.Call) and isinstance(c.func, ast.Name) and c.func.id == 'isinstance' and len(c.args) == 2 \
                            and isinstance(c.args[0], ast.Name) and c.args[0].id != 'self':
                        k = ast.unparse(c.args[1])
                        if k in ('Array', 'array.array'):
                            narrowed.setdefault((c.args[0].id, k), []).append((x, pt, pbody))
        for (p, kind), branches in narrowed.items():
            for (br, br_test, br_body) in branches:
                body_nodes = [y for b in br_body for y in ast.walk(b)]
                sites = []
                for y in body_nodes:
                    if kind == 'Array' and isinstance(y, ast.Attribute) and y.attr == 'data' and isinstance(y.value, ast.Name) and y.value.id == p \
                            and isinstance(y.ctx, ast.Load):
                        # decoding the other Array's data with the other Array's own dtype is always right
                        dec = any(isinstance(c, ast.Call) and isinstance(c.func, ast.Attribute) and c.func.attr in ('read_fn', 'parse', 'get_fn')
                                  and ast.unparse(c.func.value).startswith(f'{p}.') and any(y is z for a in c.args for z in ast.walk(a)) for c in body_nodes)
                        if not dec:
                            sites.append(y)
                    if kind == 'array.array' and isinstance(y, ast.Call) and isinstance(y.func, ast.Attribute) and y.func.attr in ('tobytes',) \
                            and isinstance(y.func.value, ast.Name) and y.func.value.id == p:
                        sites.append(y)
                for site in sites:
                    n += 1
                    # dtype stand-ins for the other container: p._dtype / p.dtype, or a local built by get_dtype(..., scale=None)
                    others = {f'{p}._dtype', f'{p}.dtype'}
                    none_scale = False
                    for y in body_nodes:
                        if isinstance(y, ast.Assign) and len(y.targets) == 1 and isinstance(y.targets[0], ast.Name) and isinstance(y.value, ast.Call) \
                                and ast.unparse(y.value.func).endswith('get_dtype') and p in ast.unparse(y.value):
                            others.add(y.targets[0].id)
                            if any(k.arg == 'scale' and isinstance(k.value, ast.Constant) and k.value.value is None for k in y.value.keywords):
                                none_scale = True
                    fields = set()
                    tests = [t for t in ast.walk(br_test)]
                    for b in br_body:
                        if getattr(b, 'lineno', 0) >= site.lineno and not any(site is z for z in ast.walk(b)):
                            break
                        tests += [t for t in ast.walk(b) if getattr(t, 'lineno', 0) <= site.lineno]
                    for t in tests:
                        if not isinstance(t, ast.Compare) or len(t.ops) != 1:
                            continue
                        a, b2 = ast.unparse(t.left), ast.unparse(t.comparators[0])
                        for mine, theirs in ((a, b2), (b2, a)):
                            if mine in ('self._dtype', 'self.dtype') and theirs in others:
                                fields |= eqf
                            for o in others:
                                if mine.startswith(('self._dtype.', 'self.dtype.')) and theirs.startswith(o + '.') and mine.split('.')[-1] == theirs.split('.')[-1]:
                                    fields.add(mine.split('.')[-1])
                            if none_scale and mine in ('self._dtype.scale', 'self.dtype.scale') and theirs == 'None':
                                fields.add('scale')
                    fields = {'length' if x in ('bitlength', 'length', 'itemsize') else x for x in fields}
                    missing = {'name', 'length', 'scale'} - fields
                    if not missing:
                        r.ok(f'{f.key}:{norm(site)}', {'instance': f.key, 'raw_data': norm(site), 'dtype_test_covers': sorted(fields)})
                    else:
                        r.fail(f.key, site, f"{name} uses the raw data of '{p}' ({ast.unparse(site)}) under a dtype test that covers {sorted(fields) or 'nothing'} "
                               f"but not {sorted(missing)}: with a different {'/'.join(sorted(missing))} the same bits are different values, so out-of-range "
                               'values are spliced in unchecked / unequal items compare equal', loc=f.loc(site))
    if n < 3:
        raise AnalysisError(f'only {n} raw cross-container data uses found in Array (3 confirmed: extend x2, equals)')
    return r


def rule_SCALE(ctx):
    """A Dtype object carries a scale besides its name and length.  Taking it apart (X.name, X.length) and handing the
    parts to something that looks the dtype up again drops the scale: values are then read or written unscaled.  A call
    receiving both parts of one object must also receive its scale, or sit under a test of that scale."""
    m = ctx.m
    r = RuleResult('SCALE', 'a Dtype is never taken apart into name and length without its scale')
    n = 0
    for f in m.funcs.values():
        if f.mod == '__main__':
            continue
        for x in own_walk(f.node):
            if not isinstance(x, ast.Call):
                continue
            attrs = {}
            allargs = list(x.args) + [k.value for k in x.keywords]
            for a in allargs:
                for y in ast.walk(a):
                    if isinstance(y, ast.Attribute) and y.attr.lstrip('_') in ('name', 'length', 'bitlength', 'scale') and isinstance(y.value, (ast.Name, ast.Attribute)):
                        attrs.setdefault(ast.unparse(y.value), set()).add(y.attr.lstrip('_'))
            for obj, s in attrs.items():
                if obj == 'self':
                    continue        # the Dtype's own methods (hash, eq, repr) work on its parts
                if 'name' in s and ({'length', 'bitlength'} & s):
                    n += 1
                    has_scale = 'scale' in s or any(k.arg == 'scale' for k in x.keywords)
                    tested = any(isinstance(i, ast.If) and f'{obj}.scale' in ast.unparse(i.test) and any(x is z for b in i.body for z in ast.walk(b))
                                 for i in own_walk(f.node))
                    if has_scale or tested:
                        r.ok(f'{f.key}:{norm(x)}', {'instance': f.key, 'call': norm(x)[:80], 'scale': 'passed' if has_scale else 'tested around the call'})
                    else:
                        r.fail(f.key, x, f"the name and length of the Dtype '{obj}' are handed on without its scale: whatever rebuilds or looks up the dtype "
                               'from them interprets the bits unscaled', loc=f.loc(x))
    # census floor: the Dtype class itself must still expose the three parts this rule reasons about
    dt = m.classes.get('Dtype')
    if dt is None or not all(p in dt.props or p in dt.methods for p in ('name', 'length', 'scale')):
        raise AnalysisError('Dtype no longer exposes name/length/scale (needs a human)')
    for p in ('name', 'length', 'scale'):
        r.ok(f'Dtype.{p}', trivial=True)
    return r

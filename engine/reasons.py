"""Rename tolerance for reason tables.

Reason tables are keyed by function key.  A pure rename of a private helper would orphan its entry and turn a
justified site into a report.  `reason_digests.json` (written by tools/gen_reason_digests.py, committed) records a
digest of the body of every function a reason table names; when a table key no longer exists in the model but a
function with the same body digest does, that function is treated as the renamed one.  The digests are only ever used
to *keep* a justification attached to unchanged code — never to raise an alarm.
"""
from __future__ import annotations

import ast
import hashlib
import keyword
import re
import json
import os

HERE = os.path.dirname(os.path.abspath(__file__))
DIGEST_FILE = os.path.join(HERE, 'reason_digests.json')


def stable_dump(n):
    """A dump of the tree that does not depend on the Python version doing the parsing (ast.dump prints fields that newer
    versions add): empty and absent fields, contexts and type comments are left out."""
    if isinstance(n, ast.JoinedStr):
        # the literal pieces of an f-string are split differently by different parser versions (3.12 adds empty pieces)
        vals, buf = [], ''
        for v in n.values:
            if isinstance(v, ast.Constant) and isinstance(v.value, str):
                buf += v.value
            else:
                if buf:
                    vals.append(repr(buf))
                    buf = ''
                vals.append(stable_dump(v))
        if buf:
            vals.append(repr(buf))
        return '(JoinedStr,' + ','.join(vals) + ')'
    if isinstance(n, ast.AST):
        parts = [type(n).__name__]
        for fld in n._fields:
            if fld in ('ctx', 'type_comment', 'type_params', 'kind'):
                continue
            v = getattr(n, fld, None)
            if v is None or v == []:
                continue
            parts.append(f'{fld}={stable_dump(v)}')
        return '(' + ','.join(parts) + ')'
    if isinstance(n, list):
        return '[' + ','.join(stable_dump(x) for x in n) + ']'
    return repr(n)


def node_digest(fn_node):
    body = [s for s in fn_node.body if not (isinstance(s, ast.Expr) and isinstance(s.value, ast.Constant))]
    txt = '\n'.join(stable_dump(s) for s in body)
    return hashlib.sha1(txt.encode()).hexdigest()[:16]


def body_digest(f):
    return node_digest(f.node)


def all_reason_keys():
    from .rules import state, mutate, mode, stream, config
    keys = set()
    for t in (state.RAISE_REASONS, mutate.N1_REASONS, mutate.N2_REASONS, mutate.N5_REASONS, mode.G3_REASONS, stream.WRITE_REASONS):
        keys |= {k[0] for k in t}
    for k in mutate.N1_REASONS:
        tail = k[1].rsplit('@', 1)[-1]
        if '@' in k[1] and ':' in tail and ' ' not in tail:
            keys.add(tail)
    for t in (mutate.B2_EXEMPT, mode.VARIANT_REFS_ALLOWED, config.GLOBAL_WRITERS):
        keys |= set(t)
    for fld, (classes, table) in state.READERS_BASE.items():
        keys |= set(table)
    return keys


class Renames:
    def __init__(self, model):
        self.m = model
        self.map = {}          # current key -> key used in the reason tables
        try:
            with open(DIGEST_FILE) as fh:
                digests = json.load(fh)
        except OSError:
            digests = {}
        baseline = set(digests.pop('*functions', {}))
        vocab = digests.pop('*vocab', None) or {}
        self.absorbed = {}
        digests.pop('*defaults', None)
        # (the model's own rename aliases make old keys answer too: look at the real table)
        orphans = {k: d for k, d in digests.items() if not dict.__contains__(model.funcs, k)}
        for old, newk in list(getattr(model, 'renamed', {}).items()) + list(getattr(model, 'moved', {}).items()):
            self.map[newk] = old
            # closures of a renamed function keep their reasons too
            for f in model.funcs.values():
                if f.parent is not None and f.key.startswith(newk + '.'):
                    self.map[f.key] = old + f.key[len(newk):]
        if orphans:
            by_digest = {}
            for f in model.funcs.values():
                by_digest.setdefault(body_digest(f), []).append(f)
            for old, d in orphans.items():
                cands = [f for f in by_digest.get(d, []) if f.key.split(':')[0] == old.split(':')[0]]
                if len(cands) == 1:
                    self.map[cands[0].key] = old

        # Extract-function tolerance: a NEW function (not in the recorded baseline) that is referenced from exactly one other
        # function F takes over F's reason entries (they are keyed by construct, and the construct moved together with the
        # code; the only caller still decides what reaches it).  Again only ever used to keep a justification attached.
        if baseline:
            table_funcs = set(digests)
            new = [f for f in model.funcs.values() if f.key not in baseline and f.key not in self.map and f.parent is None]
            if new:
                refs = {}
                for g in model.funcs.values():
                    names = {x.id for x in ast.walk(g.node) if isinstance(x, ast.Name)} | {x.attr for x in ast.walk(g.node) if isinstance(x, ast.Attribute)}
                    for f in new:
                        if f.name in names and g.key != f.key and (g.parent is None or g.parent.key != f.key):
                            refs.setdefault(f.key, set()).add(g.key if g.parent is None else _root(g).key)
                for f in new:
                    callers = refs.get(f.key, set()) - {f.key}
                    if len(callers) == 1:
                        caller = next(iter(callers))
                        ck = self.map.get(caller, caller)
                        if ck in table_funcs and caller.split(':')[0] == f.key.split(':')[0]:
                            self.map[f.key] = ck
        try:
            self._find_absorbed(model, vocab)
        except Exception:
            self.absorbed = {}

    def key(self, k):
        return self.map.get(k, k)

    def keys(self, k):
        """All the keys under which reasons for function k may be filed: its own (after renames) and those of functions of the
        reviewed tree that have since been folded into it (inline-and-delete)."""
        own = self.map.get(k, k)
        return [own] + [v for v in self.absorbed.get(k, []) if v != own]

    def _find_absorbed(self, model, vocab):
        """A function of the reviewed tree is gone (not renamed) and a surviving function of its module has GAINED most of its
        vocabulary since: its body was folded into that function, and its reason entries go with it."""
        self.absorbed = {}
        if not vocab:
            return
        present = set(dict.keys(model.funcs))
        renamed_old = set(getattr(model, 'renamed', {}).keys()) | set(self.map.values())
        trivial = {'self', 'cls', 'None', 'True', 'False', '0', '1', 'len'}
        cur = {}
        for f in model.funcs.values():
            if f.parent is None:
                out = set()
                for x in ast.walk(f.node):
                    if x is f.node:
                        continue
                    if isinstance(x, ast.Name):
                        out.add(x.id)
                    elif isinstance(x, ast.Attribute):
                        out.add(x.attr)
                    elif isinstance(x, ast.Constant) and not (isinstance(x.value, str) and len(x.value) > 20):
                        out.add(repr(x.value))
                cur[f.key] = out
        import re as _re
        strip = lambda t: _re.sub(r'^_inl\d+_', '', t)
        for old, val in vocab.items():
            if old in present or old in renamed_old:
                continue
            words, params = val[1], (val[2] if len(val) > 2 else [])
            # identifiers only (string pieces are cut differently once a constant argument has been substituted); the helper's own
            # parameters are gone after the folding (replaced by the arguments)
            w = {t for t in words if t.isidentifier()} - trivial - set(params)
            if len(w) < 2:
                continue
            for k, now in cur.items():
                if k not in vocab:
                    continue
                gained = {strip(t) for t in now} - set(vocab[k][1])
                if len(gained & w) / len(w) >= 0.6:
                    self.absorbed.setdefault(k, []).append(old)


def _root(f):
    while f.parent is not None:
        f = f.parent
    return f


# ------------------------------------------------------------------ local-rename tolerance for construct keys
_IDENT = re.compile(r"(?<![\w.'\"])([A-Za-z_]\w*)\b(?!\s*\()")
_KEEP = set(keyword.kwlist) | {'self', 'cls', 'len', 'True', 'False', 'None', 'bitstring', 'options'}


def shape(txt, keep=()):
    """The construct with every bare identifier that is not a keyword, an ALL-CAPS constant or a known global replaced
    by '?' - what stays the same when a local variable is renamed."""
    def rep(mo):
        w = mo.group(1)
        return w if (w in _KEEP or w in keep or (w.isupper() and len(w) > 1)) else '?'
    return _IDENT.sub(rep, txt)


def _flipped(txt):
    """`a < b` as `b > a` (same comparison, other way round); None if txt is not one plain comparison."""
    tail = ''
    body = txt
    if '@' in txt and ':' in txt.rsplit('@', 1)[-1]:
        body, tail = txt.rsplit('@', 1)
        tail = '@' + tail
    try:
        e = ast.parse(body, mode='eval').body
    except SyntaxError:
        return None
    sw = {ast.Lt: ast.Gt, ast.Gt: ast.Lt, ast.LtE: ast.GtE, ast.GtE: ast.LtE, ast.Eq: ast.Eq, ast.NotEq: ast.NotEq}
    if isinstance(e, ast.Compare) and len(e.ops) == 1 and type(e.ops[0]) in sw:
        return ast.unparse(ast.Compare(left=e.comparators[0], ops=[sw[type(e.ops[0])]()], comparators=[e.left])) + tail
    return None


def match(table, fk, txt, keep=(), src=None, params=()):
    k = _match1(table, fk, txt, keep, src, params)
    if k is None:
        alt = _flipped(txt)
        if alt is not None:
            k = _match1(table, fk, alt, keep, src, params)
    return k


def _match1(table, fk, txt, keep=(), src=None, params=()):
    k = _match(table, fk, txt, keep, src)
    if k is None and params:
        # a renamed parameter of a private helper: second try with the parameters abstracted too
        k = _match(table, fk, txt, set(keep) - set(params), src)
    return k


def _match(table, fk, txt, keep=(), src=None):
    """Key of ``table`` justifying construct ``txt`` of function ``fk``: the exact key, or - when a local was renamed -
    the only entry of that function with the same shape.  Only ever used to keep a justification attached."""
    if (fk, txt) in table:
        return (fk, txt)
    tail = ''
    body = txt
    if '@' in txt and ':' in txt.rsplit('@', 1)[-1]:
        body, tail = txt.rsplit('@', 1)
        tail = '@' + tail
    sh = shape(body, keep)
    cands = []
    for k in table:
        if k[0] != fk:
            continue
        kb, kt = k[1], ''
        if '@' in k[1] and ':' in k[1].rsplit('@', 1)[-1]:
            kb, kt = k[1].rsplit('@', 1)
            kt = '@' + kt
        # only an ORPHANED entry can be taken over: one whose own construct no longer occurs in the function (it was renamed);
        # an entry that still matches its own construct must not also justify a different one of the same shape
        if src is not None and re.search(r'(?<![\w.])' + re.escape(kb) + r'(?!\w)', src):
            continue
        if kt == tail and shape(kb, keep) == sh:
            cands.append(k)
    return cands[0] if len(cands) == 1 else None

#!/usr/bin/env python3
"""Confirm a seeded fault and run the checks against it.

usage: seeded.py <worktree> <fault-dir> [--keep <id>] [--property <Cxx>]

1. in the scratch worktree: demo passes on pristine code, fails with the patch; the existing test suite passes with the patch;
2. in /repo: apply the patch, run `vcheck all`, record which properties report a VIOLATION, undo the patch at once;
3. with --keep: copy patch.diff, demo.py and a meta.json into /verif/seeded/<id>/.
"""
import json
import os
import shutil
import subprocess
import sys

VERIF = os.path.dirname(os.path.dirname(os.path.abspath(__file__)))
PY = '/venv/bin/python'


def sh(cmd, cwd=None, timeout=900):
    p = subprocess.run(cmd, shell=True, cwd=cwd, capture_output=True, text=True, timeout=timeout)
    return p.returncode, p.stdout + p.stderr


def main():
    wt, fdir = sys.argv[1], os.path.abspath(sys.argv[2])
    keep = sys.argv[sys.argv.index('--keep') + 1] if '--keep' in sys.argv else None
    prop = sys.argv[sys.argv.index('--property') + 1] if '--property' in sys.argv else os.path.basename(fdir).split('_')[0]
    patch = os.path.join(fdir, 'patch.diff')
    demo = os.path.join(fdir, 'demo.py')
    res = {'fault': os.path.basename(fdir), 'property': prop}
    sh('git checkout -- bitstring', cwd=wt)
    shutil.copy(demo, os.path.join(wt, '_demo_tmp.py'))
    rc0, out0 = sh(f'{PY} _demo_tmp.py', cwd=wt)
    res['demo_pristine_rc'] = rc0
    rc, out = sh(f'git apply {patch}', cwd=wt)
    if rc != 0:
        res['error'] = 'patch does not apply in worktree: ' + out[-300:]
        print(json.dumps(res, indent=1))
        return 2
    rc1, out1 = sh(f'{PY} _demo_tmp.py', cwd=wt)
    res['demo_patched_rc'] = rc1
    res['demo_patched_tail'] = out1.strip().splitlines()[-3:]
    rct, outt = sh(f'{PY} -m pytest -q -x -p no:cacheprovider tests --ignore=tests/test_benchmarks.py', cwd=wt)
    res['suite_patched'] = outt.strip().splitlines()[-1] if outt.strip() else ''
    res['suite_patched_rc'] = rct
    sh('git checkout -- bitstring', cwd=wt)
    os.remove(os.path.join(wt, '_demo_tmp.py'))
    for t in ('tests/temp_bitstring_unit_testing_file', 'tests/temp_unit_test_file'):
        try:
            os.remove(os.path.join(wt, t))
        except OSError:
            pass
    res['confirmed'] = (rc0 == 0 and rc1 != 0 and rct == 0)
    # checks against /repo with the patch applied
    rc, out = sh(f'git -C /repo apply {patch}')
    if rc != 0:
        res['error'] = 'patch does not apply in /repo: ' + out[-300:]
        print(json.dumps(res, indent=1))
        return 2
    try:
        rcv, outv = sh('./bin/vcheck all --no-evidence', cwd=VERIF)
    finally:
        sh('git -C /repo checkout -- .')
    viol = {}
    cur = None
    lines = outv.splitlines()
    for i, ln in enumerate(lines):
        if ln.startswith('VIOLATION property='):
            pid = ln.split('property=')[1].split()[0]
            detail = lines[i + 1].strip() if i + 1 < len(lines) else ''
            viol.setdefault(pid, []).append(detail[:160])
        if ln.startswith('ANALYSIS-ERROR'):
            viol.setdefault('ANALYSIS-ERROR', []).append(ln[:200])
    res['vcheck_rc'] = rcv
    res['violations'] = viol
    res['caught_by_own_property'] = prop in viol
    res['caught_by_any'] = bool([k for k in viol if k != 'ANALYSIS-ERROR'])
    print(json.dumps(res, indent=1))
    if keep:
        dst = os.path.join(VERIF, 'seeded', keep)
        os.makedirs(dst, exist_ok=True)
        shutil.copy(patch, os.path.join(dst, 'patch.diff'))
        shutil.copy(demo, os.path.join(dst, 'demo.py'))
        notes = open(os.path.join(fdir, 'notes.txt')).read() if os.path.exists(os.path.join(fdir, 'notes.txt')) else ''
        meta = {'id': keep, 'breaks_property': prop, 'origin': 'independent sub-agent given only the property text and a scratch worktree',
                'needs_to_manifest': notes.strip()[:1200],
                'confirmed_by': {'demo_on_pristine_rc': rc0, 'demo_with_patch_rc': rc1, 'existing_suite_with_patch': res['suite_patched'],
                                 'commands': [f'cd <worktree> && {PY} demo.py', 'git apply patch.diff', f'{PY} -m pytest -q -x tests --ignore=tests/test_benchmarks.py',
                                              'git -C /repo apply patch.diff && ./bin/vcheck all && git -C /repo checkout -- .']},
                'checks_reporting_it': viol, 'caught_by_own_property': res['caught_by_own_property']}
        with open(os.path.join(dst, 'meta.json'), 'w') as fh:
            json.dump(meta, fh, indent=1)
            fh.write('\n')
    return 0


if __name__ == '__main__':
    sys.exit(main())

#!/usr/bin/env python3
"""Regenerate MANIFEST.json from engine/props.py (the single source of the claim texts)."""
import json
import os
import sys

HERE = os.path.dirname(os.path.dirname(os.path.abspath(__file__)))
sys.path.insert(0, HERE)
from engine.props import PROPS, NOT_APPLICABLE, TECHNIQUE  # noqa: E402

BASELINE = "cd /repo && /venv/bin/python -m pytest -ra -q -p no:cacheprovider --timeout=900 --continue-on-collection-errors"

checks = []
for pid in sorted(PROPS):
    sp = PROPS[pid]
    text = ("Static analysis of /repo's source (no library code is executed). Decides ONLY these structural clauses, each "
            "a necessary condition of the property: " + ' | '.join(sp['decided']) +
            " || NOT decided (run-time values): " + ' | '.join(sp['declined']))
    checks.append({
        'property_id': pid,
        'quick_cmd': f'./bin/vcheck {pid}',
        'thorough_cmd': f'./bin/vcheck {pid} --tier thorough',
        'evidence_file': f'/verif/evidence/{pid}.json',
        'replay_cmd_template': './bin/vcheck --replay {path}',
        'engine': 'engine',
        'level_claimed': {'category': sp.get('level', 'other'), 'text': text, 'design_ref': f'DESIGN.md section 4 ({pid})'},
        'level_note': 'Trusted: CPython ast/re._parser/struct/zlib; the analyser\'s MRO/call-resolution model; the table of '
                      'bitarray/struct leaf behaviours; annotations as receiver types; per-rule reason tables. Not sound '
                      'against reflection, user subclasses or monkey-patching. Thorough tier adds the seeded-fault '
                      'self-test of the rules (must fire on broken variants, stay silent on refactorings).',
        'technique': TECHNIQUE.get(pid, 'repository-specific AST/call-graph static analysis'),
    })

manifest = {
    'version': 1,
    'setup_cmd': './bin/vcheck --self-check',
    'hooks': {
        'guard': 'BITSTRING_VERIF',
        'enable': 'none needed: the checks read /repo/bitstring/*.py as source; nothing in /repo is instrumented',
        'baseline_off_cmd': BASELINE,
        'source_commits': [],
        'add_only': True,
    },
    'engines': [{
        'name': 'engine',
        'path': 'engine/',
        'serves_properties': sorted(PROPS),
        'kind_free_text': 'repository-specific static analyses over the ast of /repo/bitstring: program model with MRO, '
                          'mode-switch tables and dtype registry; flow-sensitive receiver typing and call resolution; '
                          'ownership/effect/typestate/exception/sibling-agreement/table/dimension rules',
    }],
    'checks': checks,
    'not_applicable': [{'property_id': k, 'reason': v} for k, v in sorted(NOT_APPLICABLE.items())],
    'notes': 'All checks are static (family: static analysis). Exit 0 = claimed clauses hold (KNOWN-FINDING lines for '
             'recorded defects), 1 = VIOLATION, 2 = ANALYSIS-ERROR (the analyser cannot vouch). VERIF_REPO overrides '
             'the analysed tree (default /repo).',
}
with open(os.path.join(HERE, 'MANIFEST.json'), 'w') as fh:
    json.dump(manifest, fh, indent=1)
    fh.write('\n')
print('MANIFEST.json written:', len(checks), 'checks,', len(manifest['not_applicable']), 'not applicable')

#!/usr/bin/env python3
"""Negative controls: behaviour-preserving refactorings written by independent sub-agents.

usage: refactor_check.py <worktree> [--keep]      (all <worktree>/_refactor/<id>/patch.diff)
       refactor_check.py --rerun                  (every kept refactoring under /verif/refactors, on scratch copies)

For each refactoring: the existing test suite must pass with it (confirmed in the scratch worktree), then the checks run
on a scratch copy of /repo's HEAD with the patch applied (VERIF_REPO, the same code path as vcheck).  Anything the
checks print (VIOLATION or ANALYSIS-ERROR) is a false alarm of the machinery - to be corrected in the rule - unless the
"refactoring" turns out not to preserve behaviour after all (then it is moved to the seeded faults by hand).
"""
import concurrent.futures
import json
import os
import shutil
import subprocess
import sys
import tempfile

VERIF = os.path.dirname(os.path.dirname(os.path.abspath(__file__)))
PY = '/venv/bin/python'


def sh(cmd, cwd=None, timeout=900):
    p = subprocess.run(cmd, shell=True, cwd=cwd, capture_output=True, text=True, timeout=timeout)
    return p.returncode, p.stdout + p.stderr


def checks_on(patch):
    tmp = tempfile.mkdtemp(prefix='vrf_')
    try:
        subprocess.run(f'git -C /repo archive HEAD bitstring | tar -x -C {tmp}', shell=True, check=True)
        subprocess.run(['git', 'init', '-q'], cwd=tmp, check=True)
        p = subprocess.run(['git', 'apply', patch], cwd=tmp, capture_output=True, text=True)
        if p.returncode != 0:
            p = subprocess.run(['patch', '-p1', '-s', '-F3', '-i', patch], cwd=tmp, capture_output=True, text=True)
            if p.returncode != 0:
                return None, 'patch does not apply: ' + (p.stderr or p.stdout)[-200:]
        env = dict(os.environ, VERIF_REPO=tmp, PYTHONPATH=VERIF, PYTHONDONTWRITEBYTECODE='1')
        out = subprocess.run([PY, '-m', 'engine.check', 'all', '--no-evidence'], cwd=VERIF, env=env, capture_output=True, text=True).stdout
        alarms = []
        lines = out.splitlines()
        for i, ln in enumerate(lines):
            if ln.startswith('VIOLATION property='):
                alarms.append(ln.split()[1] + ' ' + (lines[i + 1].strip()[:170] if i + 1 < len(lines) else ''))
            if ln.startswith('ANALYSIS-ERROR'):
                alarms.append(ln[:220])
        return alarms, ''
    finally:
        shutil.rmtree(tmp, ignore_errors=True)


def one(args):
    wt, rdir, keep = args
    rid = os.path.basename(rdir)
    patch = os.path.join(rdir, 'patch.diff')
    res = {'id': rid}
    if wt:
        sh('git checkout -- bitstring', cwd=wt)
        rc, out = sh(f'git apply {patch}', cwd=wt)
        if rc != 0:
            res['error'] = 'patch does not apply in worktree'
            return res
        rct, outt = sh(f'{PY} -m pytest -q -x -p no:cacheprovider tests --ignore=tests/test_benchmarks.py', cwd=wt)
        res['suite'] = outt.strip().splitlines()[-1] if outt.strip() else ''
        res['suite_rc'] = rct
        sh('git checkout -- bitstring', cwd=wt)
    alarms, err = checks_on(patch)
    res['alarms'] = alarms
    if err:
        res['error'] = err
    if keep and alarms is not None and res.get('suite_rc', 0) == 0:
        dst = os.path.join(VERIF, 'refactors', rid)
        os.makedirs(dst, exist_ok=True)
        shutil.copy(patch, os.path.join(dst, 'patch.diff'))
        notes = open(os.path.join(rdir, 'notes.txt')).read() if os.path.exists(os.path.join(rdir, 'notes.txt')) else ''
        with open(os.path.join(dst, 'meta.json'), 'w') as fh:
            json.dump({'id': rid, 'kind': 'behaviour-preserving refactoring (negative control)',
                       'origin': 'independent sub-agent given only the property text and a scratch worktree',
                       'what': notes.strip()[:1200], 'existing_suite_with_patch': res.get('suite', ''),
                       'alarms_when_recorded': alarms}, fh, indent=1)
            fh.write('\n')
    return res


def main():
    if '--rerun' in sys.argv:
        root = os.path.join(VERIF, 'refactors')
        work = [(None, os.path.join(root, d), False) for d in sorted(os.listdir(root)) if os.path.isdir(os.path.join(root, d))]
    else:
        wt = sys.argv[1]
        base = os.path.join(wt, '_refactor')
        work = [(wt, os.path.join(base, d), '--keep' in sys.argv) for d in sorted(os.listdir(base)) if os.path.isdir(os.path.join(base, d))]
    # within one worktree the suite runs must be sequential; scratch-copy checks are independent
    if work and work[0][0]:
        results = [one(w) for w in work]
    else:
        with concurrent.futures.ProcessPoolExecutor(8) as ex:
            results = list(ex.map(one, work))
    bad = 0
    for r in results:
        status = 'SILENT' if r.get('alarms') == [] else 'ALARM' if r.get('alarms') else 'ERROR'
        print(r['id'], status, r.get('suite', ''), r.get('error', ''))
        for a in r.get('alarms') or []:
            print('    ', a)
        bad += status != 'SILENT'
    print(f'{len(results)} refactorings, {bad} not silent')
    return 1 if bad else 0


if __name__ == '__main__':
    sys.exit(main())

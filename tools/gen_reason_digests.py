#!/usr/bin/env python3
"""Record the body digest of every function named by a reason table (rename tolerance, engine/reasons.py)."""
import ast, json, os, sys
HERE = os.path.dirname(os.path.dirname(os.path.abspath(__file__)))
sys.path.insert(0, HERE)
from engine.model import Model
from engine.reasons import all_reason_keys, body_digest, DIGEST_FILE
m = Model()
out = {}
missing = []
for k in sorted(all_reason_keys()):
    f = m.funcs.get(k)
    if f is None:
        missing.append(k)
    else:
        out[k] = body_digest(f)
out['*functions'] = {k: body_digest(f) for k, f in sorted(m.funcs.items())}       # baseline: which functions existed, with body digests (a function not listed is new unless it is a rename, see Renames / inline)
def _vocab(f):
    out = set()
    for x in ast.walk(f.node):
        if x is f.node:
            continue
        if isinstance(x, ast.Name):
            out.add(x.id)
        elif isinstance(x, ast.Attribute):
            out.add(x.attr)
        elif isinstance(x, ast.Constant) and not (isinstance(x.value, str) and len(x.value) > 20):
            out.add(repr(x.value))
    a = f.node.args
    return [len(a.posonlyargs + a.args), sorted(out), sorted(f.params())]


# vocabulary of every top-level function / method: used to recognise a function that was renamed AND restyled (engine/inline.py)
out['*vocab'] = {k: _vocab(f) for k, f in sorted(m.funcs.items()) if f.parent is None and '@' not in k}
out['*defaults'] = {k: len(f.node.args.defaults) for k, f in sorted(m.funcs.items()) if f.parent is None and '@' not in k}
json.dump(out, open(DIGEST_FILE, 'w'), indent=0, sort_keys=True)
print(len(out), 'digests written;', 'keys without a function (module-level or stale):', missing)
